"""C01 support code: node classes declared AT RUN TIME in small inheritance hierarchies below a root
class, and the property's statement on their instances along a history of first uses.

Why at run time: whatever the library remembers PER CLASS (which backend answers for a subclass,
a warning already issued, a memo found through the MRO or stored under the class's name) is state
that outlives every instance.  The classes of harness/c01_classes.py are module-level and shared by
all streams, so the order in which a class and its ancestors / descendants / siblings are first
hashed or compared is fixed once per process there.  Here every case declares its own hierarchy
afresh, so "which class was used first" is part of the input and is explored like any other.

Payload (JSON):

    {"root": "pymbolic.primitives:Variable" | "builtin:Expression" | ...,
     "classes": [{"name": str, "parent": int (-1 = the root), "kind": KIND, "new": [field names],
                  "store": "plain" | "object", "read": "attrs" | "delegate",
                  "fixed": obj-sexp (kind "fixed" only)}, ...],
     "insts": [{"cls": int (-1 = the root), "args": [obj-sexp, ...]}, ...],
     "ops": [["hash", i] | ["eq", i, j] | ["ne", i, j] | ["in", i, j] | ["get", i, j] | ["set", i, j]]}

KIND (how the class is declared below its parent):
    plain       undecorated, nothing declared (`class K(Parent): pass`)
    redeclared  undecorated, declares `init_arg_names` / `__getinitargs__` again with the PARENT's
                init args
    extra       undecorated, init-args protocol with the parent's init args plus its own
    fixed       undecorated, init-args protocol with the parent's init args minus the last one
                (which its `__init__` sets to a constant)
    decorated   declared with `expr_dataclass()`, adds the fields in "new" (possibly none)

The fields of an instance, in the property's sense, are the arguments it was built from (the init
args of its class); `expected_equal` never calls any method of the objects.
"""
from __future__ import annotations

import dataclasses
import importlib
import warnings

import pymbolic.primitives as p

from . import c01_classes as C
from .core import Failure
from .sexp import dumps, loads

warnings.filterwarnings("ignore", category=DeprecationWarning)

KINDS = ("plain", "redeclared", "extra", "fixed", "decorated")


def resolve_root(spec: str):
    mod, name = spec.split(":")
    if mod == "builtin":
        assert name == "Expression"
        return p.Expression
    if mod in ("harness.c01_classes", "harness.c17_classes"):
        return C.USER_CLASSES[name]
    cls = getattr(importlib.import_module(mod), name)
    assert isinstance(cls, type) and issubclass(cls, p.Expression), spec
    return cls


def root_spec(cls) -> str:
    if cls is p.Expression:
        return "builtin:Expression"
    return f"{cls.__module__}:{cls.__name__}"


def root_names(cls) -> tuple:
    return () if cls is p.Expression else tuple(C.field_names_of(cls))


def root_tag(cls) -> str:
    """how the root itself is declared: Expression / decorated / plain (undecorated, the parent's
    init args) / legacysub / legacy"""
    if cls is p.Expression:
        return "Expression"
    if "_is_expr_dataclass" in cls.__dict__:
        return "decorated"
    k = C.kind_of(cls)
    return "plain" if k == "dataclass" else k


def dataclass_path(cls) -> bool:
    """instances of the root take the dataclass paths of generated methods"""
    return cls is not p.Expression and C.kind_of(cls) == "dataclass"


# {{{ static description of a hierarchy (no class is created)

def layout(pl):
    """per class: init arg names and whether a decorated class may still be declared below it;
    raises ValueError for a hierarchy that cannot be declared"""
    root = resolve_root(pl["root"])
    rn = list(root_names(root))
    names, dc = [], []
    for i, c in enumerate(pl["classes"]):
        par = c["parent"]
        if not (-1 <= par < i):
            raise ValueError("parent order")
        pn = rn if par < 0 else names[par]
        pdc = dataclass_path(root) if par < 0 else dc[par]
        kind = c["kind"]
        if par < 0 and root is p.Expression and kind != "extra":
            raise ValueError("a class directly below Expression must bring its init args")
        if kind in ("plain", "redeclared"):
            names.append(list(pn))
            dc.append(pdc)
        elif kind == "extra":
            if not c["new"] or set(c["new"]) & set(pn):
                raise ValueError("extra init args")
            names.append(list(pn) + list(c["new"]))
            dc.append(False)
        elif kind == "fixed":
            if not pn:
                raise ValueError("nothing to fix")
            names.append(list(pn[:-1]))
            dc.append(False)
        elif kind == "decorated":
            if not pdc or set(c["new"]) & set(pn):
                raise ValueError("decorated below a legacy class")
            names.append(list(pn) + list(c["new"]))
            dc.append(True)
        else:
            raise ValueError(kind)
    return root, rn, names


def shape(pl, ci) -> str:
    """declaration kinds from class `ci` up to the nearest decorated class (or the root)"""
    root = resolve_root(pl["root"])
    out = []
    while ci >= 0:
        c = pl["classes"][ci]
        out.append(c["kind"])
        if c["kind"] == "decorated":
            return "<".join(out)
        ci = c["parent"]
    out.append("root-" + root_tag(root))
    return "<".join(out)

# }}}


# {{{ declaring the classes

def _declare(c, parent, pnames, names):
    kind, name = c["kind"], c["name"]
    ns = {"__module__": __name__ + ".dynamic", "__qualname__": name}
    if kind == "plain":
        return type(name, (parent,), ns)
    if kind == "decorated":
        has_default = dataclasses.is_dataclass(parent) and any(
            f.default is not dataclasses.MISSING or f.default_factory is not dataclasses.MISSING
            for f in dataclasses.fields(parent))
        ns["__annotations__"] = {n: object for n in c["new"]}
        if has_default:
            for n in c["new"]:
                ns[n] = None
        return p.expr_dataclass()(type(name, (parent,), ns))

    new = list(c.get("new", ()))
    npar = len(pnames)
    store_plain = c.get("store", "object") == "plain"
    # (Expression itself has no init args to hand over)
    delegate = c.get("read", "delegate") == "delegate" and parent is not p.Expression

    def put(self, n, v):
        if store_plain:
            setattr(self, n, v)
        else:
            object.__setattr__(self, n, v)

    if kind == "redeclared":
        def getinitargs(self):
            return tuple(parent.__getinitargs__(self))
    elif kind == "extra":
        def init(self, *args):
            if len(args) != npar + len(new):
                raise TypeError(f"{name} takes {npar + len(new)} arguments")
            parent.__init__(self, *args[:npar])
            for n, v in zip(new, args[npar:]):
                put(self, n, v)

        def getinitargs(self):
            if delegate:
                return (*parent.__getinitargs__(self), *(getattr(self, n) for n in new))
            return tuple(getattr(self, n) for n in names)
        ns["__init__"] = init
    elif kind == "fixed":
        const = C.sx_to_obj(loads(c["fixed"]))

        def init(self, *args):
            if len(args) != npar - 1:
                raise TypeError(f"{name} takes {npar - 1} arguments")
            parent.__init__(self, *args, const)

        def getinitargs(self):
            if delegate:
                return tuple(parent.__getinitargs__(self))[:-1]
            return tuple(getattr(self, n) for n in names)
        ns["__init__"] = init
    else:
        raise ValueError(kind)
    ns["init_arg_names"] = tuple(names)
    ns["__getinitargs__"] = getinitargs
    return type(name, (parent,), ns)


class World:
    """one fresh declaration of the hierarchy of a payload and its instances"""

    def __init__(self, pl):
        self.pl = pl
        self.root, rn, self.names = layout(pl)
        self.classes = []
        with warnings.catch_warnings():
            warnings.simplefilter("ignore")
            for i, c in enumerate(pl["classes"]):
                par = c["parent"]
                parent = self.root if par < 0 else self.classes[par]
                pn = rn if par < 0 else self.names[par]
                self.classes.append(_declare(c, parent, pn, self.names[i]))
            self.args = [[C.sx_to_obj(loads(s)) for s in it["args"]] for it in pl["insts"]]
            self.objs = [self.cls(it["cls"])(*a) for it, a in zip(pl["insts"], self.args)]

    def cls(self, ci):
        return self.root if ci < 0 else self.classes[ci]

# }}}


# {{{ the property

def expected_equal(pl, args, i, j) -> bool:
    """same node class and pairwise-equal fields, read off the INPUT: the class indices and the
    arguments the two instances were built from"""
    a, b = pl["insts"][i], pl["insts"][j]
    return (a["cls"] == b["cls"] and len(args[i]) == len(args[j])
            and all(C.struct_eq(x, y) for x, y in zip(args[i], args[j])))


def class_line(pl, ci) -> str:
    if ci < 0:
        return pl["root"].split(":")[1]
    c = pl["classes"][ci]
    par = class_line(pl, c["parent"]) if c["parent"] < 0 else pl["classes"][c["parent"]]["name"]
    if c["kind"] == "plain":
        body = "pass"
    elif c["kind"] == "decorated":
        body = "@expr_dataclass " + ", ".join(c["new"])
    else:
        _, _, names = layout(pl)
        body = f"init_arg_names = {tuple(names[ci])!r}"
    return f"class {c['name']}#{ci}({par}): {body}"


def inst_text(pl, i) -> str:
    it = pl["insts"][i]
    name = pl["root"].split(":")[1] if it["cls"] < 0 else f"{pl['classes'][it['cls']]['name']}#{it['cls']}"
    vals = ", ".join(repr(C.sx_to_obj(loads(s))) for s in it["args"])
    return f"{name}({vals})"


def describe(pl) -> str:
    cl = "; ".join(class_line(pl, i) for i in range(len(pl["classes"])))
    pool = ", ".join(inst_text(pl, k) for k in range(len(pl["insts"])))
    ops = " ".join("{}({})".format(o[0], ",".join(inst_text(pl, k) for k in o[1:])) for o in pl["ops"])
    return f"[{cl}] pool [{pool}] history [{ops}]"


def judge_pair(w, i, j, what=("eq", "ne", "hash", "key")):
    """(kind of failure, text) or None for instances i, j of world `w`"""
    a, b = w.objs[i], w.objs[j]
    want = expected_equal(w.pl, w.args, i, j)
    if "eq" in what:
        e = a == b
        if not isinstance(e, bool):
            return "eq-not-bool", f"== gives {e!r}"
        if e != want:
            return "eq-not-structural", f"== is {e}; same class and pairwise-equal fields: {want}"
    if "ne" in what:
        n = a != b
        if n is not (not want):
            return "ne-inconsistent", f"!= is {n!r}; same class and pairwise-equal fields: {want}"
    if "hash" in what and want and hash(a) != hash(b):
        return "equal-but-hash-differs", "equal fields, different hashes"
    if "key" in what:
        if want:
            if b not in {a: 1} or {a: "v"}.get(b) != "v" or b not in {a} or len({a, b}) != 1:
                return "equal-but-not-interchangeable-as-key", "an equal node is not found as dict / set key"
        else:
            if len({a, b}) != 2 or {a: "v"}.get(b) is not None or b in {a}:
                return "member-not-structural", "a node with other fields / class is found as dict / set key"
    return None


OP_CHECKS = {"eq": ("eq",), "ne": ("ne",), "in": ("key",), "get": ("key",), "set": ("key",)}


def run(pl, w=None):
    """None, or (kind, class index to blame, text, instance indices) for the first answer that is
    not the property's.  The history runs first; then the whole pool is judged pairwise IN POOL
    ORDER (so the order of the pool is itself a history of first uses)."""
    w = World(pl) if w is None else w
    first_hash = {}

    def note_hash(k):
        h = hash(w.objs[k])
        if first_hash.setdefault(k, h) != h:
            return ("hash-changed", pl["insts"][k]["cls"],
                    f"hash of {inst_text(pl, k)} changed during the history", (k,))
        return None

    with warnings.catch_warnings():
        warnings.simplefilter("ignore")
        for n, op in enumerate(pl["ops"]):
            if op[0] == "hash":
                r = note_hash(op[1])
                if r:
                    return r
                continue
            i, j = op[1], op[2]
            r = judge_pair(w, i, j, OP_CHECKS[op[0]])
            if r:
                return r[0], pl["insts"][i]["cls"], (
                    f"step {n} {op[0]}: {inst_text(pl, i)} vs {inst_text(pl, j)}: {r[1]}"), (i, j)
        m = len(w.objs)
        for i in range(m):
            for j in range(m):
                r = judge_pair(w, i, j)
                if r:
                    return r[0], pl["insts"][i]["cls"], (
                        f"pairwise pass over the pool after the history: {inst_text(pl, i)} vs "
                        f"{inst_text(pl, j)}: {r[1]}"), (i, j)
        for k in range(m):
            r = note_hash(k)
            if r:
                return r
        # a second, separately built instance of every pool entry is its equal
        for k in range(m):
            a = w.objs[k]
            b = w.cls(pl["insts"][k]["cls"])(*[C.sx_to_obj(loads(s)) for s in pl["insts"][k]["args"]])
            if not (a == b) or not (b == a) or (a != b) or hash(a) != hash(b) or b not in {a}:
                return "not-reflexive", pl["insts"][k]["cls"], (
                    f"after the history: {inst_text(pl, k)} vs a separately built instance of the same "
                    f"class from the same arguments"), (k,)
    return None


def backend(w, ci) -> str:
    """which backend the property's text makes answer for the class: `dataclass` (decorated, or
    undecorated with the init args of its nearest decorated ancestor), `legacysub` (other init args
    below a decorated class), `legacy` (no decorated ancestor) -- read off the class declarations"""
    return C.kind_of(w.cls(ci))


def oracle(pl):
    try:
        layout(pl)
    except ValueError:
        return None
    try:
        w = World(pl)
    except Exception:       # noqa: BLE001
        return None         # this hierarchy / these arguments cannot be built: not C01's statement
    try:
        r = run(pl, w)
    except Exception as ex:     # noqa: BLE001
        return Failure(f"hier-raises:{type(ex).__name__}",
                       f"{describe(pl)}: comparing / hashing raises {ex!r}")
    if r is None:
        return None
    kind, ci, text, idx = r
    # the same instances alone, on a fresh declaration of the classes, nothing else touched before
    alone_pl = {**pl, "insts": [pl["insts"][k] for k in dict.fromkeys(idx)], "ops": []}
    try:
        alone = run(alone_pl)
    except Exception:       # noqa: BLE001
        alone = ("raises",)
    if len(alone_pl["insts"]) == len(pl["insts"]) and not pl["ops"]:
        hist = ""
    elif alone is None:
        hist = (" [the same instances alone, on a fresh declaration of the classes, are judged fine: the "
                "answer depends on what was hashed / compared before]")
    else:
        hist = " [the same instances alone, on a fresh declaration of the classes, fail too]"
    return Failure(f"hier-{kind}:{backend(w, ci)}",
                   f"{describe(pl)}: {text} [declared {shape(pl, ci)}]{hist}")

# }}}


def shrink(pl):
    ops, insts, classes = pl["ops"], pl["insts"], pl["classes"]
    if ops:
        yield {**pl, "ops": []}
        if len(ops) > 1:
            yield {**pl, "ops": ops[len(ops) // 2:]}
            yield {**pl, "ops": ops[:len(ops) // 2]}
        for k in range(len(ops)):
            yield {**pl, "ops": ops[:k] + ops[k + 1:]}
    for k in range(len(insts)):
        new_ops = []
        for o in ops:
            if k in o[1:]:
                continue
            new_ops.append([o[0]] + [x - 1 if x > k else x for x in o[1:]])
        yield {**pl, "insts": insts[:k] + insts[k + 1:], "ops": new_ops}
    for k in range(len(classes) - 1, -1, -1):
        if any(c["parent"] == k for c in classes) or any(it["cls"] == k for it in insts):
            continue
        fix = lambda x, k=k: x - 1 if x > k else x      # noqa: E731
        yield {**pl,
               "classes": [{**c, "parent": fix(c["parent"])} for i, c in enumerate(classes) if i != k],
               "insts": [{**it, "cls": fix(it["cls"])} for it in insts]}
    for o in ops:
        if o[0] not in ("hash",):
            k = ops.index(o)
            yield {**pl, "ops": ops[:k] + [["hash", o[1]]] + ops[k + 1:]}


def summary(pl) -> str:
    try:
        w = World(pl)
    except Exception as ex:     # noqa: BLE001
        return f"(raises {type(ex).__name__})"
    return f"(built {len(w.classes)} {len(w.objs)})"


__all__ = ["KINDS", "World", "describe", "dumps", "layout", "oracle", "root_names", "root_spec",
           "root_tag", "shape", "shrink", "summary"]
