"""Run a harness function in a PRISTINE process per request.

Some properties speak about every single call of an entry point ("this call refuses ...", "this
call returns the derivative").  State that the library keeps BETWEEN calls (module-level caches,
registries, class attributes) then makes the answer depend on what the process did before: on the
earlier calls of the same history (which is what a history stream wants to see), but also on
everything the check process itself ran earlier (other streams, earlier cases, the shrinker's
candidates), which would make a finding irreproducible from its replay file.

`Pristine(preload)` starts ONE helper process (`python -m harness.isolate <modules>`) that imports
the given modules and then never runs any library code itself: for every request it `fork`s, the
child computes `module:function(payload)` and sends the JSON result back, and exits.  Every request
therefore starts from the state "the modules have just been imported" at the price of a fork
(a few milliseconds) instead of an interpreter start.

Protocol: one JSON line in (`{"target": "pkg.mod:fn", "payload": ...}`), one JSON line out
(`{"ok": result}` or `{"worker_error": text}`).
"""
from __future__ import annotations

import importlib
import json
import os
import sys
import traceback

CALL_TIMEOUT_S = 120


def _serve(mods):
    out = sys.stdout
    sys.stdout = sys.stderr               # stray prints must not corrupt the protocol
    try:
        for m in mods:
            importlib.import_module(m)
        hello = {"ok": "ready", "pid": os.getpid()}
    except BaseException:                 # noqa: BLE001
        hello = {"worker_error": traceback.format_exc()[-1500:]}
    out.write(json.dumps(hello) + "\n")
    out.flush()
    if "worker_error" in hello:
        return
    for line in sys.stdin:
        line = line.strip()
        if not line:
            continue
        r, w = os.pipe()
        pid = os.fork()
        if pid == 0:
            code = 0
            try:
                os.close(r)
                import signal
                signal.alarm(CALL_TIMEOUT_S)          # default action: the child dies, EOF in the parent
                rq = json.loads(line)
                mod, fn = rq["target"].split(":")
                res = {"ok": getattr(importlib.import_module(mod), fn)(rq["payload"])}
                data = json.dumps(res, default=str)
            except BaseException:         # noqa: BLE001
                data = json.dumps({"worker_error": traceback.format_exc()[-1500:]})
                code = 1
            try:
                with os.fdopen(w, "w") as f:
                    f.write(data)
            finally:
                os._exit(code)
        os.close(w)
        with os.fdopen(r) as f:
            data = f.read()
        os.waitpid(pid, 0)
        if not data.strip():
            data = json.dumps({"worker_error": "the child ended without an answer (killed / timed out)"})
        out.write(data.replace("\n", " ") + "\n")
        out.flush()


class Pristine:
    """client side; started on first use, closed at interpreter exit"""

    def __init__(self, preload):
        self.preload = list(preload)
        self.proc = None
        self.errfile = None
        self.calls = 0

    def start(self):
        import atexit
        import subprocess
        import tempfile

        from .leanio import VERIF
        env = dict(os.environ)
        pp = env.get("PYTHONPATH", "")
        if VERIF not in pp.split(":"):
            # the library under test stays where this process found it (PYTHONPATH / site)
            env["PYTHONPATH"] = pp + (":" if pp else "") + VERIF
        self.errfile = tempfile.TemporaryFile(mode="w+")       # no pipe that could fill up
        self.proc = subprocess.Popen([sys.executable, "-m", "harness.isolate", *self.preload],
                                     env=env, cwd=VERIF, stdin=subprocess.PIPE,
                                     stdout=subprocess.PIPE, stderr=self.errfile, text=True)
        hello = self._readline()
        if "worker_error" in hello:
            raise RuntimeError("isolate: helper did not start: " + hello["worker_error"])
        atexit.register(self.close)

    def _readline(self):
        line = self.proc.stdout.readline()
        if not line:
            err = ""
            try:
                self.proc.wait(timeout=5)
                self.errfile.seek(0)
                err = self.errfile.read()[-1500:]
            except Exception:       # noqa: BLE001
                pass
            raise RuntimeError(f"isolate: helper ended: {err}")
        return json.loads(line)

    def call(self, target, payload):
        if self.proc is None:
            self.start()
        self.proc.stdin.write(json.dumps({"target": target, "payload": payload}) + "\n")
        self.proc.stdin.flush()
        self.calls += 1
        res = self._readline()
        if "worker_error" in res:
            raise RuntimeError(f"isolate: {target}: {res['worker_error']}")
        return res["ok"]

    def close(self):
        if self.proc is None:
            return
        try:
            self.proc.stdin.close()
            self.proc.wait(timeout=10)
        except Exception:       # noqa: BLE001
            self.proc.kill()
        for f in (self.proc.stdout, self.errfile):
            try:
                f.close()
            except Exception:       # noqa: BLE001
                pass
        self.proc = None


if __name__ == "__main__":
    _serve(sys.argv[1:])
