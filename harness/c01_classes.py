"""C01 support code: user node classes in small inheritance hierarchies (decorated, undecorated
legacy with the init-args protocol, mixed; 2-3 levels), the generic object <-> S-expression
conversion for them and for every stock class, and the independent structural reference the
oracles use.

Wire format (mirrors `PV.Pickle.Obj`, lean/PV/Model/Pickle.lean, same as harness/c17_classes.py):

    obj ::= (atom <const>) | (tuple obj*) | (list obj*) | (dict (key*) (obj*))
          | (inst "ClassName" dataclass|legacysub|legacy (obj*))

`dataclass` = the instance takes the dataclass paths of the generated methods (the class is
decorated, or it is an undecorated subclass whose init_arg_names are the parent's fields);
`legacysub` = undecorated subclass of a decorated class with other init args (is_equal / get_hash
paths of the generated methods); `legacy` = no decorated ancestor (Expression.__eq__/__hash__).
Type objects used as field values (NaN.data_type) travel as the string atom "<type:NAME>".
"""
from __future__ import annotations

import dataclasses
import warnings
from collections.abc import Mapping

import pymbolic.primitives as p
from pymbolic.primitives import Expression, expr_dataclass

from . import c17_classes as K
from .sexp import A, expr_to_sx, sx_to_expr

warnings.filterwarnings("ignore", category=DeprecationWarning)

# {{{ decorated hierarchy, three levels

@expr_dataclass()
class DBase(Expression):
    u: object


@expr_dataclass()
class DMid(DBase):
    v: object


@expr_dataclass()
class DLeaf(DMid):
    w: tuple


@expr_dataclass()
class DTwin(DBase):
    """a sibling of DMid with the same field names: never equal to a DMid"""
    v: object


@expr_dataclass()
class DOpts(DBase):
    """a keyword mapping, normalised like CallWithKwargs.kw_parameters"""
    opts: Mapping

    def __post_init__(self):
        from immutabledict import immutabledict
        if not isinstance(self.opts, immutabledict):
            object.__setattr__(self, "opts", immutabledict(self.opts))



@expr_dataclass(init=False)
class DInit(Expression):
    """decorated with init=False: brings its own __init__ (like nodes that normalise their
    arguments); its fields are just as frozen as those of a default-decorated class"""
    lo: object
    hi: object

    def __init__(self, lo, hi):
        object.__setattr__(self, "lo", lo)
        object.__setattr__(self, "hi", hi)

# }}}


# {{{ undecorated legacy hierarchy (init-args protocol), three levels

class LBase(Expression):
    init_arg_names = ("p",)

    def __init__(self, p):
        self.p = p

    def __getinitargs__(self):
        return (self.p,)

    mapper_method = "map_l_base"


class LMid(LBase):
    init_arg_names = ("p", "q")

    def __init__(self, p, q):
        LBase.__init__(self, p)
        self.q = q

    def __getinitargs__(self):
        return (self.p, self.q)

    mapper_method = "map_l_mid"


class LLeaf(LMid):
    """same init args as its parent: a different class all the same"""
    mapper_method = "map_l_leaf"

# }}}


# {{{ mixed

class MAlias(DMid):
    """undecorated subclass of a decorated class, no new init arg"""
    mapper_method = "map_m_alias"


class MDeep(MAlias):
    """third level: undecorated below undecorated below decorated"""
    mapper_method = "map_m_deep"


class MExtra(DBase):
    """undecorated subclass of a decorated class with an extra init arg (init-args protocol)"""
    init_arg_names = ("u", "t")

    def __init__(self, u, t):
        object.__setattr__(self, "u", u)
        object.__setattr__(self, "t", t)

    def __getinitargs__(self):
        return (self.u, self.t)

    mapper_method = "map_m_extra"


class MExtraSub(MExtra):
    """third level: legacy below legacy below decorated, same init args as MExtra"""
    mapper_method = "map_m_extra_sub"


class MAliasTag(MAlias):
    """third level: legacy WITH an extra init arg below an undecorated class without one below a
    decorated class (the shape of a user class below the library's MultiVectorVariable)"""
    init_arg_names = ("u", "v", "t")

    def __init__(self, u, v, t):
        MAlias.__init__(self, u, v)
        self.t = t

    def __getinitargs__(self):
        return (self.u, self.v, self.t)

    mapper_method = "map_m_alias_tag"


class MVar(p.Variable):
    """legacy subclass of a STOCK class with an extra init arg"""
    init_arg_names = ("name", "tag")

    def __init__(self, name, tag):
        object.__setattr__(self, "name", name)
        object.__setattr__(self, "tag", tag)

    def __getinitargs__(self):
        return (self.name, self.tag)

    mapper_method = "map_m_var"


class MSum(p.Sum):
    """undecorated subclass of a stock class, no new init arg"""
    mapper_method = "map_m_sum"

# }}}

def _polynomial():
    from pymbolic.polynomial import Polynomial
    return Polynomial


class SubPoly(_polynomial()):
    """user subclass of the stock legacy class Polynomial (which brings its own __eq__/__hash__)"""
    mapper_method = "map_sub_poly"


def _rational():
    from pymbolic.rational import Rational
    return Rational


class SubRat(_rational()):
    """user subclass of the stock legacy class Rational (which brings its own __eq__/__hash__)"""
    mapper_method = "map_sub_rat"


USER_CLASSES = {c.__name__: c for c in (
    DBase, DMid, DLeaf, DTwin, DOpts, DInit, LBase, LMid, LLeaf, MAlias, MDeep, MAliasTag, MExtra,
    MExtraSub, MVar,
    MSum, SubPoly, SubRat)}
USER_CLASSES.update(K.USER_CLASSES)

TYPE_ATOMS = {"<type:float>": float, "<type:int>": int, "<type:complex>": complex}
_TYPE_NAMES = {v: k for k, v in TYPE_ATOMS.items()}


def class_by_name(name: str):
    if name in USER_CLASSES:
        return USER_CLASSES[name]
    if name == "Polynomial":
        from pymbolic.polynomial import Polynomial
        return Polynomial
    if name == "Rational":
        from pymbolic.rational import Rational
        return Rational
    cls = getattr(p, name)
    assert isinstance(cls, type) and issubclass(cls, Expression), name
    return cls


def decorated_base(cls):
    """the class whose generated methods an instance of `cls` runs: nearest class in the MRO that
    was declared with the decorator (None: Expression's own methods)"""
    for c in cls.__mro__:
        if "_is_expr_dataclass" in c.__dict__:
            return c
    return None


def init_names(cls):
    """init_arg_names without instantiating (None when the class does not provide them)"""
    if "_is_expr_dataclass" in cls.__dict__:
        return tuple(f.name for f in dataclasses.fields(cls))
    for c in cls.__mro__:
        v = c.__dict__.get("init_arg_names")
        if isinstance(v, tuple):
            return v
        if v is not None or "_is_expr_dataclass" in c.__dict__:
            break
    base = decorated_base(cls)
    if base is not None:
        return tuple(f.name for f in dataclasses.fields(base))
    return None


def kind_of(cls) -> str:
    base = decorated_base(cls)
    if base is None:
        return "legacy"
    if base is cls:
        return "dataclass"
    if init_names(cls) == tuple(f.name for f in dataclasses.fields(base)):
        return "dataclass"
    return "legacysub"


def fields_of(o) -> tuple:
    """field values: dataclass fields of a decorated class, the init args otherwise"""
    cls = type(o)
    if "_is_expr_dataclass" in cls.__dict__:
        return tuple(getattr(o, f.name) for f in dataclasses.fields(o))
    with warnings.catch_warnings():
        warnings.simplefilter("ignore")
        return tuple(o.__getinitargs__())


def field_names_of(cls) -> tuple:
    n = init_names(cls)
    return () if n is None else n


class Unencodable(Exception):
    pass


def obj_to_sx(o):
    """fields only; never looks at `_hash_value`"""
    if type(o).__name__ == "LexicalMonomialOrder":
        return [A("atom"), [A("Str"), "<LexicalMonomialOrder>"]]
    if isinstance(o, type) and o in _TYPE_NAMES:
        return [A("atom"), [A("Str"), _TYPE_NAMES[o]]]
    if o is None or isinstance(o, (bool, int, float, str)):
        return [A("atom"), expr_to_sx(o)]
    if isinstance(o, tuple):
        return [A("tuple"), *[obj_to_sx(c) for c in o]]
    if isinstance(o, list):
        return [A("list"), *[obj_to_sx(c) for c in o]]
    if isinstance(o, Mapping):
        return [A("dict"), list(o.keys()), [obj_to_sx(c) for c in o.values()]]
    if isinstance(o, Expression):
        return [A("inst"), type(o).__name__, A(kind_of(type(o))), [obj_to_sx(c) for c in fields_of(o)]]
    raise Unencodable(type(o))


NORMALISING = ("CallWithKwargs", "DOpts", "Labelled")


def sx_to_obj(s, plain_dict=False):
    """build the object from source (constructor calls): a fresh tree, no slot set.  A keyword
    mapping is handed to the classes that normalise it in `__post_init__` as a plain dict, to
    every other parent as an immutabledict (hashable)."""
    h = s[0]
    if h == "atom":
        v = sx_to_expr(s[1])
        if isinstance(v, str) and v in TYPE_ATOMS:
            return TYPE_ATOMS[v]
        if v == "<LexicalMonomialOrder>":
            from pymbolic.polynomial import LexicalMonomialOrder
            return LexicalMonomialOrder()
        return v
    if h == "tuple":
        return tuple(sx_to_obj(c) for c in s[1:])
    if h == "list":
        return [sx_to_obj(c) for c in s[1:]]
    if h == "dict":
        d = dict(zip(s[1], [sx_to_obj(c) for c in s[2]]))
        if plain_dict:
            return d
        from immutabledict import immutabledict
        return immutabledict(d)
    if h == "inst":
        cls = class_by_name(s[1])
        args = [sx_to_obj(c, plain_dict=s[1] in NORMALISING) for c in s[3]]
        if cls.__name__ in ("Rational", "SubRat"):
            # the constructor divides by the denominator's unit (ints become floats, and a float
            # denominator is then rejected): set the two init args directly
            o = cls.__new__(cls)
            o.Numerator, o.Denominator = args
            return o
        return cls(*args)
    raise ValueError(h)


def rebuild(o):
    """a fresh object with the same fields, built from source (through the wire format)"""
    from .sexp import dumps, loads
    return sx_to_obj(loads(dumps(obj_to_sx(o))))


def bits(o) -> str:
    """'b' + one digit per Expression instance in preorder: is `_hash_value` in its __dict__?"""
    out = []

    def rec(o):
        if isinstance(o, (tuple, list)):
            for c in o:
                rec(c)
        elif isinstance(o, Mapping):
            for c in o.values():
                rec(c)
        elif isinstance(o, Expression):
            out.append("1" if "_hash_value" in o.__dict__ else "0")
            for c in fields_of(o):
                rec(c)

    rec(o)
    return "b" + "".join(out)


# {{{ the property's own notion of equality, written from its text (independent of the code
# under test: no call of any pymbolic __eq__/__hash__)

def is_nan_const(v) -> bool:
    return isinstance(v, (float, complex)) and v != v


def struct_eq(a, b) -> bool:
    """`a` and `b` have the same node class and pairwise-equal fields; builtin values compare the
    way Python compares them (1 == 1.0 == True, tuples elementwise, mappings as mappings)"""
    ea, eb = isinstance(a, Expression), isinstance(b, Expression)
    if ea or eb:
        if not (ea and eb) or type(a) is not type(b):
            return False
        fa, fb = fields_of(a), fields_of(b)
        return len(fa) == len(fb) and all(struct_eq(x, y) for x, y in zip(fa, fb))
    if isinstance(a, tuple) or isinstance(b, tuple):
        return (isinstance(a, tuple) and isinstance(b, tuple) and len(a) == len(b)
                and all(struct_eq(x, y) for x, y in zip(a, b)))
    if isinstance(a, list) or isinstance(b, list):
        return (isinstance(a, list) and isinstance(b, list) and len(a) == len(b)
                and all(struct_eq(x, y) for x, y in zip(a, b)))
    if isinstance(a, Mapping) or isinstance(b, Mapping):
        return (isinstance(a, Mapping) and isinstance(b, Mapping) and len(a) == len(b)
                and all(k in b and struct_eq(v, b[k]) for k, v in a.items()))
    return bool(a == b)            # builtin scalars, strings, None, type objects


def has_nan_const(o) -> bool:
    if is_nan_const(o):
        return True
    if isinstance(o, (tuple, list)):
        return any(has_nan_const(c) for c in o)
    if isinstance(o, Mapping):
        return any(has_nan_const(c) for c in o.values())
    if isinstance(o, Expression):
        return any(has_nan_const(c) for c in fields_of(o))
    return False


def has_list(o) -> bool:
    if isinstance(o, list):
        return True
    if isinstance(o, tuple):
        return any(has_list(c) for c in o)
    if isinstance(o, Mapping):
        return any(has_list(c) for c in o.values())
    if isinstance(o, Expression):
        return any(has_list(c) for c in fields_of(o))
    return False

# }}}


def all_expression_classes():
    """every Expression subclass reachable from the live modules (stock, Polynomial, Rational, and
    the harness's user classes), sorted by (module, name)"""
    import pymbolic.polynomial  # noqa: F401
    import pymbolic.rational  # noqa: F401
    seen = []

    def walk(c):
        for s in c.__subclasses__():
            if s not in seen:
                seen.append(s)
                walk(s)
    walk(Expression)
    keep = [c for c in seen
            if c.__module__.startswith("pymbolic.")
            or c.__module__ in ("harness.c01_classes", "harness.c17_classes")]
    return sorted(keep, key=lambda c: (c.__module__, c.__name__))
