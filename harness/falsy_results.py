"""Wrappers whose child evaluates to a FALSY or None result, through the real evaluators.

"The child of each distinct wrapper is computed exactly once however often the wrapper occurs" and
"each distinct key is computed at most once per instance" must not depend on WHAT the result is:
a cache that tells a miss from a hit by the truth value of the stored result, or by `is None`,
is right for every ordinary result and recomputes exactly these.  Oracle only (the model's values
have no None); shared by C12 (`wrapper-falsy-results`) and C05 (`cse-falsy-results`).

A case: result kind, number of occurrences per evaluation, wrapper flavour, evaluator kind, number
of evaluations on the ONE instance.  The wrapped child is a call `probe(x)` of an environment
function that counts its invocations and returns the chosen result; the wrapper occurs as several
arguments of a collecting function `pack(...)` (any value can be an argument), directly and below a
tuple, so no arithmetic is done on the results.
"""
from __future__ import annotations

import itertools
from fractions import Fraction

import pymbolic.primitives as p

from .core import Failure, Stream

RESULTS = {"none": None, "zero": 0, "false": False, "float-zero": 0.0, "fraction-zero": Fraction(0),
           "empty-tuple": (), "empty-string": "", "one": 1, "tuple": (1, 2)}
SCOPES = {"eval": p.cse_scope.EVALUATION, "expr": p.cse_scope.EXPRESSION, "global": p.cse_scope.GLOBAL}


def build(pl):
    x, probe, pack = p.Variable("x"), p.Variable("probe"), p.Variable("pack")
    w = p.CommonSubexpression(p.Call(probe, (x,)), pl["prefix"], SCOPES[pl["scope"]])
    # an EQUAL wrapper built separately (another object): still the same distinct wrapper
    w_again = p.CommonSubexpression(p.Call(probe, (x,)), pl["prefix"], SCOPES[pl["scope"]])
    items = [w if i % 2 == 0 else w_again for i in range(pl["k"])]
    if pl["shape"] == "args":
        e = p.Call(pack, tuple(items))
    elif pl["shape"] == "nested":
        e = p.Call(pack, (p.Call(pack, tuple(items[:1])), *items[1:]))
    else:   # "conditional": the wrapper as condition and in both branches
        e = p.Call(pack, (p.If(items[0], items[-1], items[-1]), *items[1:]))
    return e


def make_mapper(kind, env):
    from pymbolic.mapper.evaluator import CachedEvaluationMapper, EvaluationMapper
    if kind == "plain":
        return EvaluationMapper(env)
    if kind == "cached":
        return CachedEvaluationMapper(env)
    from pymbolic.mapper.evaluator import FloatEvaluationMapper
    return FloatEvaluationMapper(env)


class FalsyResults(Stream):
    has_model = False

    def __init__(self, name, key):
        self.name = name
        self.key = key

    def cases(self, rng, tier):
        combos = list(itertools.product(RESULTS, [1, 2, 3, 5], [None, "t"], list(SCOPES),
                                        ["args", "nested", "conditional"], ["plain", "cached"], [1, 2, 3]))
        if tier == "quick":
            combos = rng.sample(combos, 500)
        for res, k, prefix, scope, shape, kind, evals in combos:
            yield {"result": res, "k": k, "prefix": prefix, "scope": scope, "shape": shape,
                   "mapper": kind, "evaluations": evals}

    def run_impl(self, pl):
        return "(oracle-only)"

    def oracle(self, pl):
        calls = []
        result = RESULTS[pl["result"]]

        def probe(v):
            calls.append(v)
            return result
        env = {"x": 3, "probe": probe, "pack": (lambda *a: tuple(a))}
        e = build(pl)
        m = make_mapper(pl["mapper"], env)
        for i in range(pl["evaluations"]):
            before = len(calls)
            try:
                m(e)
            except Exception as ex:
                return Failure(f"{self.key}:raises:{type(ex).__name__}", f"{e!r}: {ex!r}", pl)
            # one instance: the wrapper's child is computed once, in the first evaluation only
            allowed = 1 if i == 0 else 0
            if len(calls) - before > allowed:
                kind = "none" if result is None else ("falsy" if not result else "truthy")
                return Failure(f"{self.key}:{kind}-result",
                               f"{pl['mapper']} evaluator, evaluation #{i + 1} of {e!r} with probe(x) "
                               f"returning {result!r}: the child of the one distinct wrapper was "
                               f"computed {len(calls) - before} more time(s), {allowed} allowed", pl)
        return None

    def shrink(self, pl):
        if pl["evaluations"] > 1:
            yield {**pl, "evaluations": pl["evaluations"] - 1}
        if pl["k"] > 1:
            yield {**pl, "k": pl["k"] - 1}
        if pl["shape"] != "args":
            yield {**pl, "shape": "args"}
        if pl["prefix"] is not None:
            yield {**pl, "prefix": None}
        if pl["scope"] != "eval":
            yield {**pl, "scope": "eval"}

    def nontrivial_key(self, pl, model, impl):
        return repr(sorted(pl.items(), key=lambda kv: kv[0]))

    def stats(self, pl, mo, io, acc):
        acc[pl["result"]] = acc.get(pl["result"], 0) + 1
