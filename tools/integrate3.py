#!/usr/bin/env python3
"""3-way integration of a sub-agent's private copy of /verif.

usage: tools/integrate3.py <agent verif dir> <base commit> [--dry]

For every file of the agent's copy (generated/ephemeral files excluded):
  new in the agent's copy                     -> copied
  changed by the agent only                   -> copied
  changed here only / unchanged by the agent  -> left alone
  changed on both sides                       -> `git merge-file` (conflicts are reported, markers left)
  deleted by the agent, unchanged here        -> deleted
lean/PV/Driver/Ops.lean is merged by taking the union of import lines and handler entries.
DESIGN.md, MANIFEST.json, evidence, replays, obligations.json, seeded/RESULTS.json are never copied
(regenerate them / merge DESIGN.md by hand).
"""
import os
import subprocess
import sys

HERE = os.path.dirname(os.path.dirname(os.path.abspath(__file__)))
SKIP_DIRS = {".git", ".lake", "__pycache__", "evidence", "replays", "design-experiments", "agent-reports"}
SKIP_FILES = {"DESIGN.md", "MANIFEST.json", "lean/obligations.json", "seeded/RESULTS.json", "lean/.lock",
              "lean/lake-manifest.json"}
OPS = "lean/PV/Driver/Ops.lean"


def files(root):
    out = set()
    for d, ds, fs in os.walk(root):
        ds[:] = [x for x in ds if x not in SKIP_DIRS]
        for f in fs:
            rel = os.path.relpath(os.path.join(d, f), root)
            if rel in SKIP_FILES or rel.endswith((".pyc", ".orig", ".rej")):
                continue
            out.add(rel)
    return out


def base_blob(base, rel):
    pr = subprocess.run(["git", "-C", HERE, "show", f"{base}:{rel}"], capture_output=True)
    return pr.stdout if pr.returncode == 0 else None


def read(path):
    try:
        with open(path, "rb") as f:
            return f.read()
    except FileNotFoundError:
        return None


def merge_ops(base, mine, theirs):
    """union of imports and handler entries"""
    def parts(b):
        ls = b.decode().split("\n")
        imps = [l for l in ls if l.startswith("import ")]
        hs = [l for l in ls if l.strip().startswith(", handle")]
        return ls, imps, hs
    ls, imps, hs = parts(mine)
    _, timps, ths = parts(theirs)
    out = []
    done_imp = False
    for l in ls:
        if l.startswith("import "):
            if not done_imp:
                for i in imps + [t for t in timps if t not in imps]:
                    out.append(i)
                done_imp = True
            continue
        if l.strip() == "-- HANDLERS":
            for t in ths:
                if t not in hs:
                    out.append(t)
        out.append(l)
    res = "\n".join(out).encode()
    # other edits of the agent inside Ops.lean (rare): report if its non-import, non-handler lines differ from base
    bl = [l for l in (base or b"").decode().split("\n") if not l.startswith("import ") and not l.strip().startswith(", handle")]
    tl = [l for l in theirs.decode().split("\n") if not l.startswith("import ") and not l.strip().startswith(", handle")]
    return res, bl != tl


def main():
    agent, base = sys.argv[1], sys.argv[2]
    dry = "--dry" in sys.argv
    a_files, h_files = files(agent), files(HERE)
    report = {"new": [], "copied": [], "merged": [], "conflict": [], "deleted": [], "both-new-differ": [],
              "ops-other-edits": []}
    for rel in sorted(a_files):
        theirs = read(os.path.join(agent, rel))
        mine = read(os.path.join(HERE, rel))
        b = base_blob(base, rel)
        dst = os.path.join(HERE, rel)
        if rel == OPS:
            if theirs != b and mine is not None:
                res, other = merge_ops(b, mine, theirs)
                if res != mine:
                    report["merged"].append(rel)
                    if not dry:
                        open(dst, "wb").write(res)
                if other:
                    report["ops-other-edits"].append(rel)
            continue
        if b is None:
            if mine is None:
                report["new"].append(rel)
                if not dry:
                    os.makedirs(os.path.dirname(dst), exist_ok=True)
                    open(dst, "wb").write(theirs)
            elif mine != theirs:
                report["both-new-differ"].append(rel)
            continue
        if theirs == b or theirs == mine:
            continue
        if mine is None:
            report["conflict"].append(rel + " (deleted here, changed by agent)")
            continue
        if mine == b:
            report["copied"].append(rel)
            if not dry:
                open(dst, "wb").write(theirs)
            continue
        if rel.endswith(".jsonl"):
            import json as _json

            def recs(blob):
                out = []
                for l in blob.decode().split("\n"):
                    if l.strip():
                        d = _json.loads(l)
                        out.append(((d.get("property"), d.get("key")), l))
                return out
            bm = dict(recs(b))
            res = recs(mine)
            keys = [k for k, _ in res]
            for k, l in recs(theirs):
                if k not in keys:
                    res.append((k, l))
                    keys.append(k)
                elif bm.get(k) != l and dict(res)[k] == bm.get(k):
                    res = [(kk, l if kk == k else ll) for kk, ll in res]
            merged = ("\n".join(l for _, l in res) + "\n").encode()
            report["merged"].append(rel)
            if not dry:
                open(dst, "wb").write(merged)
            continue
        # 3-way
        import tempfile
        with tempfile.TemporaryDirectory() as td:
            pb, pt, pm = (os.path.join(td, n) for n in ("base", "theirs", "mine"))
            open(pb, "wb").write(b)
            open(pt, "wb").write(theirs)
            open(pm, "wb").write(mine)
            pr = subprocess.run(["git", "merge-file", "-L", "verif", "-L", "base", "-L", "agent", pm, pb, pt])
            merged = open(pm, "rb").read()
        (report["conflict"] if pr.returncode != 0 else report["merged"]).append(rel)
        if not dry:
            open(dst, "wb").write(merged)
    # deletions
    pr = subprocess.run(["git", "-C", HERE, "ls-tree", "-r", "--name-only", base], capture_output=True, text=True)
    for rel in pr.stdout.split("\n"):
        if not rel or rel in SKIP_FILES or any(p in SKIP_DIRS for p in rel.split("/")):
            continue
        if rel not in a_files and os.path.exists(os.path.join(HERE, rel)):
            if read(os.path.join(HERE, rel)) == base_blob(base, rel):
                report["deleted"].append(rel)
                if not dry:
                    os.unlink(os.path.join(HERE, rel))
            else:
                report["conflict"].append(rel + " (deleted by agent, changed here)")
    for k, v in report.items():
        if v:
            print(f"{k}:")
            for x in v:
                print("  ", x)


if __name__ == "__main__":
    main()
