#!/usr/bin/env python3
"""Write lean/PV/Model/ParserTableRef.lean: the parser table the hand-written model
`PV/Model/Parser.lean` is tied to, in a decomposed form (one named definition per row) that the
proofs of `PV/Proofs/ParserTable*.lean` unfold row by row.

Run by hand (PYTHONPATH=<verif>:<repo> /venv/bin/python tools/mkparsertableref.py) ONLY when the
model has been adapted to a changed source: the check itself never writes this file — it proves
`PV.Generated.c07ParserTable = PV.c07ModelTable` (`PV.C07.parser_table_current`)."""
import os
import re
import sys

HERE = os.path.dirname(os.path.dirname(os.path.abspath(__file__)))
sys.path.insert(0, HERE)

from extract import parser as xp  # noqa: E402
from extract.lex import lean_str  # noqa: E402


def ident(tag):
    m = re.match(r'⟨"(\w+)"', tag) or re.match(r'\.is ⟨"(\w+)"', tag)
    if m:
        return m.group(1)
    if tag == ".inComp":
        return "comp"
    raise SystemExit(f"no identifier for {tag}")


def main():
    repo = os.environ.get("REPO", "/repo")
    rd = xp.Reader(xp._mod({"repo": repo}), {"repo": repo})
    d = xp.read_all(rd)
    out = ["import PV.Model.ParserTable", "/-",
           "  C07, T-gen.  The parser table the hand-written model `PV/Model/Parser.lean` is tied to: what",
           "  `extract/parser.py` read from `pymbolic/parser.py` when the model was last adapted to the",
           "  source, one named definition per row (written by tools/mkparsertableref.py).",
           "  `PV/Proofs/ParserTable*.lean` prove, once and for all inputs, that the interpreter of",
           "  `PV/Model/ParserTable.lean` run on THIS table is the hand-written parser;",
           "  `PV.C07.parser_table_current` proves on every run that the table regenerated from the",
           "  current source (`PV.Generated.c07ParserTable`) is this table.",
           "-/", "namespace PV", ""]
    out.append("def c07ModelComp : List (C07Tag × String) := [\n    " + ",\n    ".join(d["comp"]) + "]\n")
    out.append(f"def c07ModelJoin : C07Tm :=\n  {d['join']}\n")
    out.append("def c07ModelTerminals : List C07TermRow := [\n    " + ",\n    ".join(d["terms"]) + "]\n")
    pre_names = []
    for tag, cmds in d["pres"]:
        n = "c07Pre_" + ident(tag)
        pre_names.append(n)
        out.append(f"def {n} : C07PreRow :=\n  {xp.L_pre_row(tag, cmds, 6)}\n")
    post_names = []
    for row in d["posts"]:
        n = "c07Post_" + ident(row[0])
        post_names.append(n)
        out.append(f"def {n} : C07PostRow :=\n  {xp.L_post_row(*row, ind=6)}\n")
    out.append("def c07ModelPrefixes : List C07PreRow :=\n  [" + ", ".join(pre_names) + "]\n")
    out.append("def c07ModelPostfixes : List C07PostRow :=\n  [" + ",\n   ".join(post_names) + "]\n")
    out.append(f"def c07ModelExit : C07Tm :=\n  {d['exit_tm']}\n")
    out.append(f"def c07ModelArglist : C07Arglist :=\n  {xp.L_arglist(d)}\n")
    out.append("def c07ModelTable : C07ParserTable := {")
    out.append("  compTable := c07ModelComp,")
    out.append("  joinToSlice := c07ModelJoin,")
    out.append(f"  floatReplaces := {xp.L_list([lean_str(x) for x in d['freps']])},")
    out.append("  ctors := [\n    " + ",\n    ".join(d["ctors"]) + "],")
    out.append("  terminals := c07ModelTerminals,")
    out.append("  prefixes := c07ModelPrefixes,")
    out.append("  postfixes := c07ModelPostfixes,")
    out.append(f"  exprDefault := {d['dflt']},")
    out.append("  exprExit := c07ModelExit,")
    out.append("  arglist := c07ModelArglist,")
    out.append(f"  call := {xp.L_call(d)} }}")
    out.append("\nend PV\n")
    path = os.path.join(HERE, "lean", "PV", "Model", "ParserTableRef.lean")
    with open(path, "w") as f:
        f.write("\n".join(out))
    print("wrote", path)


main()
