#!/venv/bin/python
"""Regenerate MANIFEST.json from the property modules (harness/props/cXX.py)."""
import json
import os
import sys

HERE = os.path.dirname(os.path.dirname(os.path.abspath(__file__)))
sys.path.insert(0, HERE)
from harness.setup import all_props  # noqa: E402

props = {p.id: p for p in all_props()}
ids = [json.loads(l)["id"] for l in open(os.path.join(HERE, "properties.jsonl"))]
checks = []
na = []
# properties whose check exists but whose theorems are still being integrated
PENDING = set(os.environ.get("VERIF_PENDING", "").split(",")) - {""}
for pid in ids:
    p = props.get(pid)
    if p is None or getattr(p, "not_applicable", None) or pid in PENDING:
        na.append({"property_id": pid,
                   "reason": getattr(p, "not_applicable", None)
                   or "check not built yet (DESIGN.md §9 build order); nothing is claimed for it"})
        continue
    checks.append({
        "property_id": pid,
        "quick_cmd": f"./check {pid} --tier quick",
        "thorough_cmd": f"./check {pid} --tier thorough",
        "evidence_file": f"evidence/{pid}.json",
        "replay_cmd_template": f"./check {pid} --replay {{path}}",
        "engine": "lean4-proof+correspondence",
        "level_claimed": {"category": p.level, "text": p.level_text, "design_ref": p.design_ref},
        "level_note": p.level_note,
        "technique": p.technique,
    })
man = {
    "version": 1,
    "setup_cmd": "./check --setup",
    "hooks": {
        "guard": "PYMBOLIC_VERIF",
        "enable": "no hooks are needed: all observation is done by subclassing mappers and importing "
                  "modules from /repo (pymbolic is installed editable from /repo in /venv)",
        "baseline_off_cmd": "cd /repo && /venv/bin/python -m pytest -ra -q -p no:cacheprovider "
                            "--timeout=900 --continue-on-collection-errors",
        "source_commits": [],
        "add_only": True,
    },
    "engines": [{
        "name": "lean4-proof+correspondence",
        "path": "lean/ (Lake project PV), harness/ (Python), check (CLI)",
        "serves_properties": [c["property_id"] for c in checks],
        "kind_free_text": "Lean 4 theorems about an executable model (lean/PV/Model), tied to /repo on "
                          "every run by regenerated tables (lean/PV/Generated) and by a correspondence "
                          "run of the compiled model driver against the real code",
    }],
    "checks": checks,
    "not_applicable": na,
    "notes": "see DESIGN.md; known_findings.jsonl lists genuine defects recorded rather than repaired",
}
with open(os.path.join(HERE, "MANIFEST.json"), "w") as f:
    json.dump(man, f, indent=1)
print(f"{len(checks)} checks, {len(na)} not_applicable")
