#!/usr/bin/env python3
"""Run the checks against the seeded changes kept under /verif/seeded/<ID>/<name>/.

  tools/run_seeded.py [--inplace] [ID ...]

Default mode: each patch is applied in a scratch git worktree of /repo under /tmp (removed
afterwards) and the check runs with PYTHONPATH pointing there (so other work against /repo is not
disturbed).  --inplace applies the patch to /repo itself (git apply), runs the check and undoes it
(git checkout -- .), as the brief describes.  Results are written to seeded/RESULTS.json.
"""
import json
import os
import subprocess
import sys
import time

HERE = os.path.dirname(os.path.dirname(os.path.abspath(__file__)))
SEEDED = os.path.join(HERE, "seeded")


def sh(cmd, **kw):
    return subprocess.run(cmd, shell=True, capture_output=True, text=True, **kw)


def run_one(pid, name, inplace, tier="quick", seed="0"):
    d = os.path.join(SEEDED, pid, name)
    patch = os.path.join(d, "patch.diff")
    meta = json.load(open(os.path.join(d, "meta.json")))
    checks = meta.get("checks", [pid])
    res = {"property": pid, "name": name, "checks": {}}
    if str(meta.get("status", "")).startswith("obsolete"):
        # the change no longer breaks the property on the current tree (see its meta.json)
        res["obsolete"] = meta["status"]
        return res
    if inplace:
        tree = "/repo"
        r = sh(f"git -C /repo apply {patch}")
    else:
        tree = f"/tmp/seedrun_{pid}_{name}_{os.getpid()}"
        sh(f"git -C /repo worktree add -q --detach {tree} HEAD")
        r = sh(f"git -C {tree} apply {patch}")
    if r.returncode != 0:
        res["error"] = "patch does not apply: " + r.stderr[-300:]
    else:
        try:
            for c in checks:
                env = dict(os.environ, VERIF_SEED=seed, REPO=tree, VERIF_EVIDENCE_DIR=f'/tmp/seedrun_ev_{os.getpid()}')
                env["PYTHONPATH"] = tree
                t0 = time.time()
                pr = subprocess.run([os.path.join(HERE, "check"), c, "--tier", tier], env=env,
                                    capture_output=True, text=True, cwd=HERE)
                viol = [l for l in pr.stdout.split("\n") if l.startswith("VIOLATION")]
                keys = []
                for v in viol:
                    rp = v.split("replay=")[1].split()[0]
                    try:
                        keys.append(json.load(open(os.path.join(HERE, rp))).get("key")
                                    or json.load(open(os.path.join(HERE, rp))).get("kind"))
                    except Exception:
                        pass
                res["checks"][c] = {"exit": pr.returncode, "violations": len(viol), "keys": keys[:6],
                                    "no_failing_input": any("no-failing-input-found" in v for v in viol),
                                    "wall_s": round(time.time() - t0, 1)}
        finally:
            pass
    if inplace:
        sh("git -C /repo checkout -- .")
    else:
        sh(f"git -C /repo worktree remove --force {tree}")
        sh(f"rm -rf /tmp/seedrun_ev_{os.getpid()}")
    # regenerated tables must be restored from the real tree
    subprocess.run([os.path.join(HERE, "check"), "--setup"], capture_output=True, text=True, cwd=HERE)
    return res


def main():
    args = [a for a in sys.argv[1:] if not a.startswith("--")]
    inplace = "--inplace" in sys.argv
    results = []
    for pid in sorted(os.listdir(SEEDED)):
        if not os.path.isdir(os.path.join(SEEDED, pid)) or (
                args and pid not in args and not any(a.startswith(pid + "/") for a in args)):
            continue
        for name in sorted(os.listdir(os.path.join(SEEDED, pid))):
            if args and pid not in args and f"{pid}/{name}" not in args:
                continue
            if os.path.exists(os.path.join(SEEDED, pid, name, "patch.diff")):
                r = run_one(pid, name, inplace)
                results.append(r)
                caught = any(c["exit"] == 1 for c in r["checks"].values())
                if r.get("obsolete"):
                    print(f"{pid}/{name}: OBSOLETE", flush=True)
                    continue
                print(f"{pid}/{name}: {'CAUGHT' if caught else 'MISSED'} {json.dumps(r['checks'])[:300]}",
                      flush=True)
    out = os.path.join(SEEDED, "RESULTS.json")
    old = []
    if os.path.exists(out) and args:
        done = {(r["property"], r["name"]) for r in results}
        old = [r for r in json.load(open(out)) if (r["property"], r["name"]) not in done]
    json.dump(sorted(old + results, key=lambda r: (r["property"], r["name"])), open(out, "w"), indent=1)


if __name__ == "__main__":
    main()
