#!/usr/bin/env python3
"""Run the checks against the seeded changes in parallel.

  tools/run_seeded_parallel.py [-j N] [ID | ID/name ...]

A check regenerates the tables under lean/PV/Generated from the tree it is pointed at and
rebuilds the proofs on them, so two runs against DIFFERENT trees cannot share one lean/ directory.
This tool makes N private copies of /verif (with the build output) under /tmp, gives each a share
of the seeded changes (tools/run_seeded.py: scratch worktree of /repo per change, removed
afterwards), merges the results into seeded/RESULTS.json and removes the copies.  /repo itself is
never touched.
"""
import json
import os
import shutil
import subprocess
import sys

HERE = os.path.dirname(os.path.dirname(os.path.abspath(__file__)))
SEEDED = os.path.join(HERE, "seeded")


def order(name):
    return (name[0], int(name[1:])) if name[1:].isdigit() else (name[0], 999)


def main():
    args = sys.argv[1:]
    jobs = 6
    if "-j" in args:
        i = args.index("-j")
        jobs = int(args[i + 1])
        del args[i:i + 2]
    todo = []
    for pid in sorted(os.listdir(SEEDED)):
        d = os.path.join(SEEDED, pid)
        if not os.path.isdir(d):
            continue
        for name in sorted(os.listdir(d), key=order):
            if not os.path.exists(os.path.join(d, name, "patch.diff")):
                continue
            if args and pid not in args and f"{pid}/{name}" not in args:
                continue
            todo.append((pid, name))
    if not todo:
        print("nothing to run")
        return
    # one property's changes stay together (its proof modules are rebuilt once per table change)
    by_prop = {}
    for pid, name in todo:
        by_prop.setdefault(pid, []).append(f"{pid}/{name}")
    groups = [[] for _ in range(min(jobs, len(by_prop)))]
    for pid, names in sorted(by_prop.items(), key=lambda kv: -len(kv[1])):
        min(groups, key=len).extend(names)
    procs = []
    for k, g in enumerate(groups):
        copy = f"/tmp/vc_par_{os.getpid()}_{k}"
        subprocess.run(["rsync", "-a", "--exclude", ".git", "--exclude", "replays", HERE + "/", copy + "/"],
                       check=True)
        os.makedirs(os.path.join(copy, "replays"), exist_ok=True)
        log = open(f"/tmp/vc_par_{os.getpid()}_{k}.log", "w")
        procs.append((copy, g, log, subprocess.Popen(
            [sys.executable, os.path.join(copy, "tools", "run_seeded.py"), *g], cwd=copy,
            stdout=log, stderr=subprocess.STDOUT)))
    results = {}
    for copy, g, log, pr in procs:
        pr.wait()
        log.close()
        print(open(log.name).read(), end="", flush=True)
        try:
            got = {(r["property"], r["name"]): r for r in json.load(open(os.path.join(copy, "seeded", "RESULTS.json")))}
            for x in g:
                pid, name = x.split("/")
                if (pid, name) in got:
                    results[(pid, name)] = got[(pid, name)]
        except Exception as ex:
            print(f"{copy}: no results ({ex})")
        shutil.rmtree(copy, ignore_errors=True)
        os.unlink(log.name)
    out = os.path.join(SEEDED, "RESULTS.json")
    old = {}
    if os.path.exists(out):
        old = {(r["property"], r["name"]): r for r in json.load(open(out))}
    old.update(results)
    json.dump(sorted(old.values(), key=lambda r: (r["property"], order(r["name"]))), open(out, "w"), indent=1)
    bad = []
    for (pid, name), r in sorted(results.items()):
        if r.get("obsolete"):
            continue
        c = r["checks"].get(pid) or next(iter(r["checks"].values()), {"exit": 0, "no_failing_input": False})
        if c["exit"] != 1:
            bad.append(f"{pid}/{name} MISSED")
        elif c["no_failing_input"]:
            bad.append(f"{pid}/{name} no-failing-input-found")
    print(f"{len(results)} changes run; not found with a failing input: {bad}")


if __name__ == "__main__":
    main()
