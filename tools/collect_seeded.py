#!/usr/bin/env python3
"""Verify the changes proposed in /tmp/mut_<ID> (apply / existing tests pass / demo fails with the
change and passes without) in a fresh scratch worktree and keep the confirmed ones under
/verif/seeded/<ID>/<n>/."""
import json
import os
import shutil
import subprocess
import sys

HERE = os.path.dirname(os.path.dirname(os.path.abspath(__file__)))


def sh(cmd, cwd=None, env=None, timeout=1200):
    return subprocess.run(cmd, shell=True, capture_output=True, text=True, cwd=cwd, env=env,
                          timeout=timeout)


START = int(os.environ.get("SEED_START", "1"))  # number of the first kept change (m<START>, ...)

for pid in sys.argv[1:]:
    src = f"/tmp/mut_{pid}"
    meta = json.load(open(os.path.join(src, "meta.json")))
    for i, m in enumerate(meta["mutations"], START):
        tree = f"/tmp/confirm_{pid}_{i}"
        sh(f"git -C /repo worktree remove --force {tree}")
        sh(f"git -C /repo worktree add -q --detach {tree} HEAD")
        env = dict(os.environ, PYTHONPATH=tree)
        # run the demo from a neutral directory: the script's own directory is sys.path[0]
        os.makedirs(f"/tmp/confirm_demo_{pid}_{i}", exist_ok=True)
        shutil.copy(os.path.join(src, m["demo"]), f"/tmp/confirm_demo_{pid}_{i}/demo.py")
        # the demo runs from the ROOT of the scratch tree (its directory is sys.path[0])
        demo = shutil.copy(os.path.join(src, m["demo"]), os.path.join(tree, "_seeded_demo.py"))
        diff = os.path.join(src, m["diff"])
        clean = sh(f"/venv/bin/python {demo}", cwd=tree, env=env)
        ap = sh(f"git apply {diff}", cwd=tree)
        tests = sh("/venv/bin/python -m pytest -q -p no:cacheprovider --timeout=900 test", cwd=tree, env=env)
        mutated = sh(f"/venv/bin/python {demo}", cwd=tree, env=env)
        ok = (clean.returncode == 0 and ap.returncode == 0 and tests.returncode == 0
              and "41 passed" in tests.stdout and mutated.returncode != 0)
        print(pid, i, "CONFIRMED" if ok else "REJECTED",
              dict(clean=clean.returncode, apply=ap.returncode, tests=tests.stdout.strip().split("\n")[-1][:40],
                   mutated=mutated.returncode))
        sh(f"git -C /repo worktree remove --force {tree}")
        if ok:
            pass
        if True:
            shutil.rmtree(f"/tmp/confirm_demo_{pid}_{i}", ignore_errors=True) if not ok else None
        if ok:
            dst = os.path.join(HERE, "seeded", pid, f"m{i}")
            os.makedirs(dst, exist_ok=True)
            shutil.copy(diff, os.path.join(dst, "patch.diff"))
            shutil.copy(f"/tmp/confirm_demo_{pid}_{i}/demo.py", os.path.join(dst, "demo.py"))
            shutil.rmtree(f"/tmp/confirm_demo_{pid}_{i}", ignore_errors=True)
            json.dump({"property": pid, "summary": m.get("summary"), "needs": m.get("needs"),
                       "files": m.get("files"),
                       "confirmed": "scratch worktree of /repo HEAD: demo exits 0 clean; patch applies; "
                                    "existing suite 41 passed with patch; demo exits non-zero with patch",
                       "checks": [pid]},
                      open(os.path.join(dst, "meta.json"), "w"), indent=1)
