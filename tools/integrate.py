#!/usr/bin/env python3
"""tools/integrate.py <agent verif dir> <OpsModule> <handlerName>: copy the files an agent added
to its private copy into /verif and hook its driver handler in."""
import filecmp
import os
import shutil
import sys

src, opsmod, handler = sys.argv[1], sys.argv[2], sys.argv[3]
dst = os.path.dirname(os.path.dirname(os.path.abspath(__file__)))
skip_dirs = {".lake", ".git", "evidence", "replays", "__pycache__", "agent-reports"}
skip_files = {"Ops.lean", "PV.lean", "obligations.json", "known_findings.jsonl", "MANIFEST.json"}
copied = []
for root, dirs, files in os.walk(src):
    dirs[:] = [d for d in dirs if d not in skip_dirs]
    for f in files:
        if f in skip_files or f.endswith(".pyc"):
            continue
        a = os.path.join(root, f)
        rel = os.path.relpath(a, src)
        b = os.path.join(dst, rel)
        if not os.path.exists(b):
            os.makedirs(os.path.dirname(b), exist_ok=True)
            shutil.copy2(a, b)
            copied.append(rel)
        elif not filecmp.cmp(a, b, shallow=False):
            print("DIFFERS (not copied):", rel)
ops = os.path.join(dst, "lean", "PV", "Driver", "Ops.lean")
s = open(ops).read()
imp = f"import PV.Driver.{opsmod}\n"
if imp not in s:
    s = s.replace("import PV.Driver.GAOps\n", "import PV.Driver.GAOps\n" + imp)
    s = s.replace("   -- HANDLERS\n", f"   , {handler}\n   -- HANDLERS\n")
    open(ops, "w").write(s)
print("copied:", *copied, sep="\n  ")
