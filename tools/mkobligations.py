#!/usr/bin/env python3
"""Scan lean/PV/Properties/Cxx.lean and record the fully-qualified theorem names each property
must keep (lean/obligations.json).  Run by hand after adding theorems; the checks fail when a
recorded name is missing or depends on a disallowed axiom."""
import json
import os
import re
import sys

HERE = os.path.dirname(os.path.dirname(os.path.abspath(__file__)))
PROPS = os.path.join(HERE, "lean", "PV", "Properties")
WITNESS = re.compile(r"(_cex|_defect|_witness|_raises|_indexError|_discrepancy)$")


def strip_comments(src):
    out, i, depth = [], 0, 0
    while i < len(src):
        if src.startswith("/-", i):
            depth += 1; i += 2
        elif depth and src.startswith("-/", i):
            depth -= 1; i += 2
        elif depth:
            i += 1
        elif src.startswith("--", i):
            while i < len(src) and src[i] != "\n":
                i += 1
        else:
            out.append(src[i]); i += 1
    return "".join(out)


res = {}
for fn in sorted(os.listdir(PROPS)):
    m = re.match(r"(C\d+)(\w*)\.lean$", fn)
    if not m:
        continue
    pid = m.group(1)
    src = strip_comments(open(os.path.join(PROPS, fn)).read())
    ns = []
    entry = res.setdefault(pid, {"theorems": [], "partial": [], "witnesses": []})
    for line in src.split("\n"):
        mm = re.match(r"\s*namespace\s+([\w.]+)", line)
        if mm:
            ns.append(mm.group(1)); continue
        mm = re.match(r"\s*end\s+([\w.]+)\s*$", line)
        if mm and ns and ns[-1] == mm.group(1):
            ns.pop(); continue
        mm = re.match(r"\s*(?:private\s+)?theorem\s+([\w.']+)", line)
        if mm:
            name = ".".join(ns + [mm.group(1)])
            if re.search(r"_partial$", name):
                entry["partial"].append(name)
            elif WITNESS.search(name):
                entry["witnesses"].append(name)
            else:
                entry["theorems"].append(name)
with open(os.path.join(HERE, "lean", "obligations.json"), "w") as f:
    json.dump(res, f, indent=1)
for k, v in res.items():
    print(k, {a: len(b) for a, b in v.items()})
